"""R-raw: independent model of the raw+JSON picture file format and of the
coded picture geometry.

Written from docs/source/user_guide/file_format.rst and the standard's rules
quoted there ((11.6.2) picture_dimensions, (11.6.3) video_depth); shares no
code with vc2_conformance and does not import it (nor numpy).

Format, as documented:

* ``.raw``: planar, Y then C1 then C2; each plane in raster order; each sample
  an unsigned integer, little-endian, LSB aligned, zero padded, stored in the
  smallest power-of-two number of bytes that holds ``depth`` bits
  (1-8 -> 1, 9-16 -> 2, 17-32 -> 4, 33-64 -> 8 ...).
* ``.json``: UTF-8 JSON ``{"picture_number": <string>, "picture_coding_mode":
  <int>, "video_parameters": {...20 named entries...}}``.

Geometry:

* luma plane = frame_width x frame_height; colour-difference planes are halved
  horizontally for 4:2:2 (index 1), horizontally and vertically for 4:2:0
  (index 2); when pictures are fields (picture_coding_mode 1) every plane's
  height is halved again (floor divisions, in that order).
* depth = intlog2(excursion + 1) = ceil(log2(excursion + 1)) = number of bits
  needed to write ``excursion`` itself = ``excursion.bit_length()``.
"""
import json

COMPONENTS = ("Y", "C1", "C2")

VIDEO_PARAMETER_NAMES = (
    "frame_width",
    "frame_height",
    "color_diff_format_index",
    "source_sampling",
    "top_field_first",
    "frame_rate_numer",
    "frame_rate_denom",
    "pixel_aspect_ratio_numer",
    "pixel_aspect_ratio_denom",
    "clean_width",
    "clean_height",
    "left_offset",
    "top_offset",
    "luma_offset",
    "luma_excursion",
    "color_diff_offset",
    "color_diff_excursion",
    "color_primaries_index",
    "color_matrix_index",
    "transfer_function_index",
)

# horizontal, vertical subsampling factor of the colour-difference planes
SUBSAMPLING = {0: (1, 1), 1: (2, 1), 2: (2, 2)}


def depth_of_excursion(excursion):
    """(11.6.3): smallest n with 2**n >= excursion + 1."""
    excursion = int(excursion)
    n = 0
    while (1 << n) < excursion + 1:
        n += 1
    return n


def bytes_per_sample(depth):
    """Smallest power of two number of bytes holding `depth` bits (>= 1)."""
    need = -(-int(depth) // 8)
    n = 1
    while n < need:
        n *= 2
    return n


def plane_sizes(vp, pcm):
    """{"Y": (width, height), "C1": ..., "C2": ...} per (11.6.2)."""
    lw = int(vp["frame_width"])
    lh = int(vp["frame_height"])
    cw, ch = lw, lh
    fmt = int(vp["color_diff_format_index"])
    if fmt == 1:
        cw //= 2
    elif fmt == 2:
        cw //= 2
        ch //= 2
    elif fmt != 0:
        raise ValueError("unknown colour difference format %r" % (fmt,))
    if int(pcm) == 1:
        lh //= 2
        ch //= 2
    elif int(pcm) != 0:
        raise ValueError("unknown picture coding mode %r" % (pcm,))
    return {"Y": (lw, lh), "C1": (cw, ch), "C2": (cw, ch)}


def layout(vp, pcm):
    """[(component, width, height, depth_bits, bytes_per_sample), ...] in file order."""
    sizes = plane_sizes(vp, pcm)
    ld = depth_of_excursion(vp["luma_excursion"])
    cd = depth_of_excursion(vp["color_diff_excursion"])
    out = []
    for c in COMPONENTS:
        d = ld if c == "Y" else cd
        w, h = sizes[c]
        out.append((c, w, h, d, bytes_per_sample(d)))
    return out


def is_regular(vp, pcm):
    """Frame size a multiple of the subsampling; of twice the vertical
    subsampling when the source is interlaced or pictures are fields."""
    hs, vs = SUBSAMPLING[int(vp["color_diff_format_index"])]
    if int(vp["source_sampling"]) == 1 or int(pcm) == 1:
        vs *= 2
    w, h = int(vp["frame_width"]), int(vp["frame_height"])
    return w >= hs and h >= vs and w % hs == 0 and h % vs == 0


def raw_size(vp, pcm):
    return sum(w * h * b for _, w, h, _, b in layout(vp, pcm))


def encode_picture(picture, vp, pcm, padding=None):
    """Picture dict -> bytes of the .raw file.

    `padding`: optional {component: [[int,...],...]} of values OR-ed into the
    bits above the component's depth (to fabricate files that differ in padding
    bits only); None writes the documented zero padding.
    """
    out = bytearray()
    for c, w, h, d, b in layout(vp, pcm):
        rows = picture[c]
        if len(rows) != h:
            raise ValueError("%s has %d rows, expected %d" % (c, len(rows), h))
        for y, row in enumerate(rows):
            if len(row) != w:
                raise ValueError("%s row %d has %d samples, expected %d" % (c, y, len(row), w))
            for x, v in enumerate(row):
                v = int(v)
                if v < 0 or v >> d:
                    raise ValueError("%s[%d][%d]=%d does not fit %d bits" % (c, y, x, v, d))
                if padding is not None:
                    p = int(padding[c][y][x])
                    v |= (p << d) & ((1 << (8 * b)) - 1)
                out += v.to_bytes(b, "little")
    return bytes(out)


def decode_picture(data, vp, pcm, picture_number=None):
    """bytes of a .raw file -> (picture dict, padding dict, nonzero_padding_count).

    Raises ValueError when the length is not exactly that of one picture.
    Sample values have the padding bits removed; the removed bits are returned
    separately so that a caller can assert the documented zero padding.
    """
    lay = layout(vp, pcm)
    want = sum(w * h * b for _, w, h, _, b in lay)
    if len(data) != want:
        raise ValueError("raw file holds %d bytes, format needs %d" % (len(data), want))
    pic = {}
    pad = {}
    nonzero = 0
    pos = 0
    for c, w, h, d, b in lay:
        rows = []
        prow = []
        mask = (1 << d) - 1
        for _ in range(h):
            row = []
            pr = []
            for _ in range(w):
                v = int.from_bytes(data[pos:pos + b], "little")
                pos += b
                row.append(v & mask)
                p = v >> d
                pr.append(p)
                if p:
                    nonzero += 1
            rows.append(row)
            prow.append(pr)
        pic[c] = rows
        pad[c] = prow
    if picture_number is not None:
        pic["pic_num"] = picture_number
    return pic, pad, nonzero


def encode_metadata(vp, pcm, picture_number):
    """-> bytes of the .json file (picture number as a string, as documented)."""
    doc = {
        "picture_number": str(int(picture_number)),
        "picture_coding_mode": int(pcm),
        "video_parameters": {
            k: (bool(vp[k]) if k == "top_field_first" else int(vp[k])) for k in VIDEO_PARAMETER_NAMES if k in vp
        },
    }
    return json.dumps(doc).encode("utf-8")


def decode_metadata(data):
    """bytes of a .json file -> (vp dict of plain ints/bool, pcm int, picture_number int).

    Strict about the documented types: picture_number must be a string of
    decimal digits, picture_coding_mode and the parameters JSON integers,
    top_field_first a JSON boolean.  Raises ValueError otherwise.
    """
    doc = json.loads(data.decode("utf-8"))
    if not isinstance(doc, dict):
        raise ValueError("metadata is not an object")
    missing = {"picture_number", "picture_coding_mode", "video_parameters"} - set(doc)
    if missing:
        raise ValueError("metadata lacks %s" % sorted(missing))
    pn = doc["picture_number"]
    if not isinstance(pn, str) or not pn.isdigit():
        raise ValueError("picture_number is %r, not a string of digits" % (pn,))
    pcm = doc["picture_coding_mode"]
    if type(pcm) is not int:
        raise ValueError("picture_coding_mode is %r, not an integer" % (pcm,))
    vp_in = doc["video_parameters"]
    if not isinstance(vp_in, dict):
        raise ValueError("video_parameters is not an object")
    vp = {}
    for k, v in vp_in.items():
        if k not in VIDEO_PARAMETER_NAMES:
            raise ValueError("unknown video parameter %r" % (k,))
        if k == "top_field_first":
            if type(v) is not bool:
                raise ValueError("top_field_first is %r, not a boolean" % (v,))
        elif type(v) is not int:
            raise ValueError("%s is %r, not an integer" % (k, v))
        vp[k] = v
    return vp, pcm, int(pn)


def read_files(raw_path, json_path):
    """Independent reader of a file pair -> (picture incl. pic_num, vp, pcm, nonzero_padding_count)."""
    with open(json_path, "rb") as f:
        vp, pcm, pn = decode_metadata(f.read())
    with open(raw_path, "rb") as f:
        data = f.read()
    pic, _pad, nonzero = decode_picture(data, vp, pcm, pn)
    return pic, vp, pcm, nonzero


def write_files(picture, vp, pcm, raw_path, json_path, padding=None):
    """Independent writer of a file pair."""
    with open(json_path, "wb") as f:
        f.write(encode_metadata(vp, pcm, picture["pic_num"]))
    with open(raw_path, "wb") as f:
        f.write(encode_picture(picture, vp, pcm, padding))


def count_differences(pa, pb):
    """{component: number of sample positions whose values differ}."""
    out = {}
    for c in COMPONENTS:
        n = 0
        for ra, rb in zip(pa[c], pb[c]):
            for a, b in zip(ra, rb):
                if a != b:
                    n += 1
        out[c] = n
    return out
