"""Check runner: plans shards, runs workers in subprocesses, aggregates, judges.

Exit status: 0 held (or only known findings) / 1 violation / 2 inconclusive.
"""
import argparse
import importlib
import json
import os
import shutil
import subprocess
import sys
import tempfile
import time

from vlib import jsonx
from vlib import findings as findings_mod

HOME = os.environ.get("VERIF_HOME") or os.path.dirname(os.path.dirname(os.path.abspath(__file__)))
REPO = os.environ.get("VERIF_REPO", "/repo")


def tree_stamp():
    try:
        head = subprocess.run(
            ["git", "-C", REPO, "rev-parse", "HEAD"], capture_output=True, text=True, timeout=30
        ).stdout.strip()
        dirty = bool(
            subprocess.run(
                ["git", "-C", REPO, "status", "--porcelain", "--untracked-files=no"],
                capture_output=True,
                text=True,
                timeout=30,
            ).stdout.strip()
        )
        return {"repo_head": head, "repo_dirty": dirty}
    except Exception as e:  # pragma: no cover
        return {"repo_head": "unknown", "repo_dirty": None, "error": repr(e)}


def run_workers(check, mode, payloads, jobs, timeout_s, workdir, env):
    """Run one worker per payload, at most `jobs` at a time.  Returns list of
    (payload, result-dict-or-None, note)."""
    pending = list(enumerate(payloads))
    running = []
    out = [None] * len(payloads)
    while pending or running:
        while pending and len(running) < jobs:
            i, p = pending.pop(0)
            inp = os.path.join(workdir, "%s-%d.in.json" % (mode, i))
            outp = os.path.join(workdir, "%s-%d.out.json" % (mode, i))
            errp = os.path.join(workdir, "%s-%d.err" % (mode, i))
            jsonx.dump_file(p, inp)
            ef = open(errp, "wb")
            proc = subprocess.Popen(
                [sys.executable, "-m", "vlib.worker", mode, check, inp, outp],
                stdout=ef,
                stderr=subprocess.STDOUT,
                env=env,
                cwd=HOME,
            )
            running.append((i, p, proc, time.time(), outp, errp, ef))
        still = []
        for item in running:
            i, p, proc, t0, outp, errp, ef = item
            rc = proc.poll()
            if rc is None:
                if time.time() - t0 > timeout_s:
                    proc.kill()
                    proc.wait()
                    ef.close()
                    out[i] = (p, None, "hard-timeout after %ds" % timeout_s)
                else:
                    still.append(item)
                continue
            ef.close()
            res = None
            note = ""
            if rc == 0 and os.path.exists(outp):
                try:
                    res = jsonx.load_file(outp)
                except Exception as e:
                    note = "unreadable result: %r" % (e,)
            else:
                try:
                    with open(errp, "rb") as f:
                        tail = f.read()[-1500:].decode("utf-8", "replace")
                except Exception:
                    tail = ""
                note = "worker exit %s: %s" % (rc, tail)
            out[i] = (p, res, note)
        running = still
        if running:
            time.sleep(0.05)
    return out


def main(argv=None):
    ap = argparse.ArgumentParser()
    ap.add_argument("check")
    ap.add_argument("--tier", default=os.environ.get("VERIF_TIER") or "quick", choices=["quick", "thorough"])
    ap.add_argument("--replay")
    ap.add_argument("--jobs", type=int, default=int(os.environ.get("VERIF_JOBS", "0")) or (os.cpu_count() or 4))
    ap.add_argument("--shards", help="comma separated shard indices to run (debug)")
    args = ap.parse_args(argv)

    check = args.check.upper()
    seed = int(os.environ.get("VERIF_SEED", "0") or 0)
    mod = importlib.import_module("checks." + check.lower())
    env = dict(os.environ)
    env["VERIF_TIER"] = args.tier
    env["VERIF_SEED"] = str(seed)

    if args.replay:
        return replay(mod, args.replay)

    t0 = time.time()
    os.makedirs(os.path.join(HOME, ".work"), exist_ok=True)
    workdir = tempfile.mkdtemp(prefix=check + "-", dir=os.path.join(HOME, ".work"))
    try:
        return _run(mod, check, args, seed, env, workdir, t0)
    finally:
        shutil.rmtree(workdir, ignore_errors=True)


def _run(mod, check, args, seed, env, workdir, t0):
    shards = mod.plan(args.tier, seed)
    for i, s in enumerate(shards):
        s.setdefault("shard", i)
        s.setdefault("tier", args.tier)
    if args.shards:
        keep = set(int(x) for x in args.shards.split(","))
        shards = [s for s in shards if s["shard"] in keep]
    shard_timeout = float(getattr(mod, "SHARD_TIMEOUT_S", {"quick": 900, "thorough": 6 * 3600})[args.tier]
                          if isinstance(getattr(mod, "SHARD_TIMEOUT_S", None), dict)
                          else getattr(mod, "SHARD_TIMEOUT_S", 900 if args.tier == "quick" else 6 * 3600))
    results = run_workers(check, "shard", shards, args.jobs, shard_timeout, workdir, env)

    agg = {
        "evaluations": 0,
        "distinct": set(),
        "counters": {},
        "sets": {},
        "samples": [],
        "violations": [],
        "violation_counts": {},
        "inconclusive": [],
        "timeouts": [],
        "shards": len(shards),
        "shards_ok": 0,
    }
    for spec, res, note in results:
        if res is None:
            agg["inconclusive"].append("shard %s: %s" % (spec.get("shard"), note))
            continue
        agg["shards_ok"] += 1
        agg["counters"]["max_shard_wall_s"] = max(agg["counters"].get("max_shard_wall_s", 0), round(res.get("wall_s", 0), 1))
        agg["counters"]["sum_shard_wall_s"] = round(agg["counters"].get("sum_shard_wall_s", 0) + res.get("wall_s", 0), 1)
        agg["evaluations"] += res["evaluations"]
        agg["distinct"].update(res["distinct"])
        for k, v in res["counters"].items():
            if k.startswith("max_"):
                agg["counters"][k] = max(agg["counters"].get(k, v), v)
            else:
                agg["counters"][k] = agg["counters"].get(k, 0) + v
        for k, v in res["sets"].items():
            agg["sets"].setdefault(k, set()).update(tuple(x) if isinstance(x, list) else x for x in v)
        if len(agg["samples"]) < 10:
            agg["samples"].extend(res["samples"][: max(1, 10 // max(1, len(shards)))])
        agg["violations"].extend(res["violations"])
        for k, v in res["violation_counts"].items():
            agg["violation_counts"][k] = agg["violation_counts"].get(k, 0) + v
        agg["inconclusive"].extend(res["inconclusive"])
        agg["timeouts"].extend(res["timeouts"])

    # ---- second stage for soft timeouts: decide on logical steps ----------
    slow = 0
    if agg["timeouts"]:
        touts = agg["timeouts"][:16]
        step_timeout = float(getattr(mod, "STEP_TIMEOUT_S", 1800))
        sres = run_workers(check, "steps", touts, args.jobs, step_timeout, workdir, env)
        for case, res, note in sres:
            if res is None:
                agg["inconclusive"].append("timed-out case could not be re-decided: " + note)
                continue
            if res.get("steps_status") == "budget-exceeded":
                agg["violations"].append(
                    {
                        "signature": "no-result-within-logical-budget",
                        "what": "case consumed more than %d repository function entries without a result"
                        % res.get("budget", -1),
                        "case": case,
                        "detail": None,
                    }
                )
                agg["violation_counts"]["no-result-within-logical-budget"] = (
                    agg["violation_counts"].get("no-result-within-logical-budget", 0) + 1
                )
            else:
                slow += 1
                agg["violations"].extend(res["violations"])
                for k, v in res["violation_counts"].items():
                    agg["violation_counts"][k] = agg["violation_counts"].get(k, 0) + v
        if len(agg["timeouts"]) > len(touts):
            agg["inconclusive"].append("%d timed-out cases not re-decided" % (len(agg["timeouts"]) - len(touts)))
    agg["counters"]["slow_cases_redecided"] = slow

    # ---- coverage floor ------------------------------------------------------
    floor_missing = []
    if hasattr(mod, "floor"):
        floor_missing = list(mod.floor(agg, args.tier) or [])
    if agg["evaluations"] == 0:
        floor_missing.append("no evaluations")

    # ---- known findings ------------------------------------------------------
    kf = findings_mod.load(os.path.join(HOME, "known_findings.json"))
    known_lines = {}
    new_violations = []
    for v in agg["violations"]:
        entry = findings_mod.match(kf, mod.PROPERTY, v["signature"])
        if entry is not None:
            known_lines[entry["key"]] = entry
        else:
            new_violations.append(v)

    replay_dir = os.path.join(HOME, "replays")
    out_lines = []
    seen_sigs = set()
    for v in new_violations:
        if v["signature"] in seen_sigs:
            continue
        seen_sigs.add(v["signature"])
        os.makedirs(replay_dir, exist_ok=True)
        path = os.path.join(replay_dir, "%s-%s.json" % (mod.PROPERTY, jsonx.sha12(v)))
        jsonx.dump_file(
            {"property": mod.PROPERTY, "seed": seed, "tier": args.tier, "violation": v, "case": v["case"]},
            path,
            indent=1,
        )
        out_lines.append(
            "VIOLATION property=%s replay=%s signature=%s what=%s"
            % (mod.PROPERTY, path, v["signature"], str(v["what"])[:300].replace("\n", " "))
        )
    for key, entry in sorted(known_lines.items()):
        print("KNOWN-FINDING: property=%s %s [%s; %d occurrence(s) this run]"
              % (mod.PROPERTY, entry["what"], key, agg["violation_counts"].get(key, 0)))

    wall = time.time() - t0
    verdict = "held"
    if new_violations:
        verdict = "violated"
    elif floor_missing or agg["inconclusive"]:
        verdict = "inconclusive"

    write_evidence(mod, agg, args.tier, seed, wall, verdict, floor_missing, len(new_violations), known_lines)

    for l in out_lines:
        print(l)
    summary = {
        "property": mod.PROPERTY,
        "tier": args.tier,
        "seed": seed,
        "verdict": verdict,
        "evaluations": agg["evaluations"],
        "distinct_nontrivial": len(agg["distinct"]),
        "wall_s": round(wall, 1),
        "violations_by_signature": agg["violation_counts"],
        "floor_missing": floor_missing,
        "inconclusive": agg["inconclusive"][:5],
    }
    print("SUMMARY " + json.dumps(summary))
    if verdict == "violated":
        return 1
    if verdict == "inconclusive":
        print("INCONCLUSIVE property=%s: %s" % (mod.PROPERTY, "; ".join(floor_missing + agg["inconclusive"][:3])[:1000]))
        return 2
    return 0


def write_evidence(mod, agg, tier, seed, wall, verdict, floor_missing, nviol, known_lines):
    cov = {
        "evaluations": agg["evaluations"],
        "distinct_nontrivial": len(agg["distinct"]),
        "rule": getattr(mod, "RULE", ""),
        "samples": agg["samples"][:10] or ["(no sample recorded)"],
        "counters": {k: agg["counters"][k] for k in sorted(agg["counters"])},
        "observed_sets": {k: sorted(agg["sets"][k], key=repr)[:200] for k in sorted(agg["sets"])},
        "observed_set_sizes": {k: len(v) for k, v in agg["sets"].items()},
        "shards": agg["shards"],
        "shards_completed": agg["shards_ok"],
        "verdict": verdict,
        "floor_missing": floor_missing,
        "inconclusive_notes": agg["inconclusive"][:20],
        "violations_by_signature": agg["violation_counts"],
        "known_findings_observed": sorted(known_lines),
        "tree": tree_stamp(),
    }
    if hasattr(mod, "evidence_extra"):
        try:
            cov.update(mod.evidence_extra(agg, tier) or {})
        except Exception as e:  # pragma: no cover
            cov["evidence_extra_error"] = repr(e)
    ev = {
        "property_id": mod.PROPERTY,
        "tier": tier,
        "seed": seed,
        "level": getattr(mod, "LEVEL", "exploration"),
        "coverage": cov,
        "assumptions": list(getattr(mod, "ASSUMPTIONS", [])),
        "wall_s": round(wall, 2),
        "violations": nviol,
    }
    evdir = os.path.join(HOME, "evidence")
    os.makedirs(evdir, exist_ok=True)
    path = os.path.join(evdir, mod.PROPERTY + ".json")
    text = jsonx.dumps(ev, indent=1, sort_keys=True)
    try:
        import jsonschema

        with open("/root/.vp/EVIDENCE.schema.json") as f:
            schema = json.load(f)
        jsonschema.validate(json.loads(text), schema)
    except ImportError:
        pass
    except FileNotFoundError:
        pass
    except Exception as e:
        print("EVIDENCE-SCHEMA-WARNING: %s" % (str(e)[:300],))
    with open(path, "w") as f:
        f.write(text + "\n")


def replay(mod, path):
    from vlib import worker

    doc = jsonx.load_file(path)
    case = doc["case"] if isinstance(doc, dict) and "case" in doc else doc
    import signal

    signal.signal(signal.SIGALRM, worker._alarm)
    ctx = worker.Ctx(mod.PROPERTY, {"shard": "replay"}, int(doc.get("seed", 0)) if isinstance(doc, dict) else 0, "quick")
    if hasattr(mod, "setup"):
        mod.setup(ctx)
    done = worker.run_guarded(mod, case, ctx, float(getattr(mod, "CASE_TIMEOUT_S", 60)) * 5)
    kf = findings_mod.load(os.path.join(HOME, "known_findings.json"))
    rc = 0
    if not done:
        print("REPLAY timed out (soft watchdog); re-run under step budget to decide")
        rc = 2
    for v in ctx.violations:
        entry = findings_mod.match(kf, mod.PROPERTY, v["signature"])
        if entry:
            print("KNOWN-FINDING: property=%s %s [%s]" % (mod.PROPERTY, entry["what"], entry["key"]))
        else:
            print("VIOLATION property=%s replay=%s signature=%s what=%s" % (mod.PROPERTY, path, v["signature"], v["what"]))
            if v.get("detail"):
                print(str(v["detail"])[:3000])
            rc = 1
    if rc == 0:
        print("REPLAY property=%s: no violation on this tree (%d evaluations)" % (mod.PROPERTY, ctx.evaluations))
    return rc


if __name__ == "__main__":
    sys.exit(main())
