"""known_findings.json matcher.  The file is committed and never written at run time.

Each entry: {"property": "C19", "key": "<mechanism signature>", "status": "open"|"fixed",
             "what": "...", "commit": "<sha, for fixed>", "line": "fixed: property=... (for fixed)"}
Only *open* entries suppress anything; a fixed entry is documentation.
"""
import json
import os


def load(path):
    if not os.path.exists(path):
        return []
    with open(path) as f:
        doc = json.load(f)
    return doc.get("findings", [])


def match(entries, prop, signature):
    for e in entries:
        if e.get("property") == prop and e.get("status") == "open" and e.get("key") == signature:
            return e
    return None
