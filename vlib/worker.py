"""Worker process: runs one shard of one check (or one case under a step budget).

    python -m vlib.worker shard <check> <shard.json> <out.json>
    python -m vlib.worker steps <check> <case.json>  <out.json>

A check module (checks/cNN.py) provides

    PROPERTY            "C07"
    plan(tier, seed)    -> list of JSON-able shard specs
    cases(spec, ctx)    -> iterator of JSON-able cases for that shard
    run_case(case, ctx) -> None; reports through ctx
    (optional) setup(ctx)  called once per process before any case
    (optional) CASE_TIMEOUT_S, STEP_BUDGET

`ctx` is the monitor's notebook: counters, distinct-case keys, samples,
violations (each with a mechanism *signature*), inconclusive notes.
"""
import faulthandler
import importlib
import os
import random
import signal
import sys
import time
import traceback

from vlib import jsonx


class CaseTimeout(BaseException):
    """Soft wall-clock watchdog fired (never a verdict by itself)."""


class StepBudgetExceeded(BaseException):
    """Logical step budget (repository function entries) exhausted."""


class OutOfScope(BaseException):
    """Raised by size guards: the case is outside the property's stated domain."""


MAX_DISTINCT_PER_SHARD = 1500000
MAX_VIOLATIONS_KEPT_PER_SIG = 5


class Ctx(object):
    def __init__(self, prop, spec, seed, tier):
        self.prop = prop
        self.spec = spec
        self.seed = seed
        self.tier = tier
        self.rng = random.Random("%s/%s/%s" % (seed, prop, spec.get("shard", 0)))
        self.counters = {}
        self.sets = {}
        self.evaluations = 0
        self.distinct = set()
        self.samples = []
        self.violations = []
        self.violation_counts = {}
        self.inconclusive = []
        self.timeouts = []
        self.max_samples = 3
        self.current_case = None

    # -- notebook ---------------------------------------------------------
    def count(self, name, n=1):
        self.counters[name] = self.counters.get(name, 0) + n

    def maxi(self, name, v):
        if v > self.counters.get(name, float("-inf")):
            self.counters[name] = v

    def note(self, setname, value):
        """Record membership in a named small set (e.g. exception classes seen)."""
        s = self.sets.setdefault(setname, set())
        if len(s) < 5000:
            s.add(value)

    def seen(self, key, nontrivial=True, n=1):
        """One evaluation of the oracle; `key` identifies the case canonically."""
        self.evaluations += n
        if nontrivial and len(self.distinct) < MAX_DISTINCT_PER_SHARD:
            self.distinct.add(key if isinstance(key, int) else jsonx.key_hash(key))

    def sample(self, obj, force=False):
        if force or len(self.samples) < self.max_samples:
            self.samples.append(obj)

    def violation(self, signature, what, case=None, detail=None):
        n = self.violation_counts.get(signature, 0)
        self.violation_counts[signature] = n + 1
        if n < MAX_VIOLATIONS_KEPT_PER_SIG:
            self.violations.append(
                {
                    "signature": signature,
                    "what": what,
                    "case": case if case is not None else self.current_case,
                    "detail": detail,
                }
            )

    def inconclusive_note(self, why):
        if len(self.inconclusive) < 50:
            self.inconclusive.append(why)
        self.count("inconclusive")

    # -- results ----------------------------------------------------------
    def result(self):
        return {
            "shard": self.spec.get("shard", 0),
            "evaluations": self.evaluations,
            "distinct": sorted(self.distinct),
            "counters": self.counters,
            "sets": {k: sorted(v, key=repr) for k, v in self.sets.items()},
            "samples": self.samples,
            "violations": self.violations,
            "violation_counts": self.violation_counts,
            "inconclusive": self.inconclusive,
            "timeouts": self.timeouts,
        }


def _alarm(signum, frame):
    raise CaseTimeout()


def _roomy(f):
    return f()


# CPython 3.12 keeps Python frames in 16 KiB chunks of a per-thread data stack and mmaps/munmaps a chunk every time the
# call depth crosses a chunk boundary.  The repository deep-copies matchers/descriptions recursively (copy.deepcopy,
# make_matching_sequence) and so crosses boundaries thousands of times per case; measured, most of the time then goes
# to the kernel (far worse on a loaded machine).  A caller frame that reserves a big evaluation stack makes the
# interpreter allocate one large chunk once, in whose slack all nested frames fit.  Nothing about what is executed changes.
_roomy.__code__ = _roomy.__code__.replace(co_stacksize=66000)


def run_guarded(mod, case, ctx, timeout_s):
    """Run one case under the soft watchdog.  Returns True if it completed."""
    ctx.current_case = case
    signal.setitimer(signal.ITIMER_REAL, timeout_s)
    try:
        _roomy(lambda: mod.run_case(case, ctx))
        return True
    except CaseTimeout:
        ctx.count("soft_timeouts")
        if len(ctx.timeouts) < 20:
            ctx.timeouts.append(case)
        return False
    except StepBudgetExceeded:
        raise
    except Exception:
        # an exception escaping the check's own code: the monitor could not decide this case
        signal.setitimer(signal.ITIMER_REAL, 0)
        etype, evalue, tb = sys.exc_info()
        frames = traceback.extract_tb(tb)
        inner = frames[-1] if frames else None
        if inner is not None and os.sep + "vc2_conformance" + os.sep in inner.filename:
            # the real code raised something the check did not anticipate on an input the
            # harness built as valid: that is an observation about the code, not about the harness
            where = inner.filename.split("vc2_conformance" + os.sep)[-1] + ":" + inner.name
            ctx.violation(
                "unexpected-exception:%s:%s" % (where, etype.__name__),
                "repository code raised %s: %s (innermost frame %s:%d) while the check was executing a case"
                % (etype.__name__, evalue, where, inner.lineno),
                detail=traceback.format_exc()[-2500:],
            )
        else:
            ctx.inconclusive_note("harness-exception in run_case: " + traceback.format_exc()[-1500:])
        return False
    finally:
        signal.setitimer(signal.ITIMER_REAL, 0)
        ctx.current_case = None


def _repo_prefix():
    import vc2_conformance

    return os.path.dirname(os.path.abspath(vc2_conformance.__file__))


class StepCounter(object):
    """Counts entries into repository functions (sys.monitoring PY_START)."""

    TOOL = 4

    def __init__(self, budget):
        self.budget = budget
        self.steps = 0
        self.prefix = _repo_prefix()

    def __enter__(self):
        mon = sys.monitoring
        mon.use_tool_id(self.TOOL, "verif-steps")
        prefix = self.prefix

        def cb(code, offset):
            if not code.co_filename.startswith(prefix):
                return mon.DISABLE
            self.steps += 1
            if self.steps > self.budget:
                raise StepBudgetExceeded()

        mon.register_callback(self.TOOL, mon.events.PY_START, cb)
        mon.set_events(self.TOOL, mon.events.PY_START)
        return self

    def __exit__(self, *a):
        mon = sys.monitoring
        mon.set_events(self.TOOL, 0)
        mon.register_callback(self.TOOL, mon.events.PY_START, None)
        mon.free_tool_id(self.TOOL)
        return False


def main(argv):
    faulthandler.enable()
    mode, check, inpath, outpath = argv[:4]
    mod = importlib.import_module("checks." + check.lower())
    # a runaway (harness or repository) must become a MemoryError in this process, not take the box down
    try:
        import resource

        lim = int(getattr(mod, "MEM_LIMIT_GB", 8)) << 30
        resource.setrlimit(resource.RLIMIT_AS, (lim, lim))
    except Exception:
        pass
    seed = int(os.environ.get("VERIF_SEED", "0") or 0)
    tier = os.environ.get("VERIF_TIER", "quick")
    signal.signal(signal.SIGALRM, _alarm)
    t0 = time.time()
    if mode == "shard":
        spec = jsonx.load_file(inpath)
        ctx = Ctx(mod.PROPERTY, spec, seed, tier)
        timeout_s = float(getattr(mod, "CASE_TIMEOUT_S", 60))
        try:
            if hasattr(mod, "setup"):
                _roomy(lambda: mod.setup(ctx))
            for case in _roomy(lambda: list(mod.cases(spec, ctx))) if getattr(mod, "CASES_EAGER", False) else mod.cases(spec, ctx):
                run_guarded(mod, case, ctx, timeout_s)
            if hasattr(mod, "teardown"):
                mod.teardown(ctx)
        except BaseException:
            ctx.inconclusive_note("worker-exception: " + traceback.format_exc()[-2000:])
        res = ctx.result()
    elif mode == "steps":
        case = jsonx.load_file(inpath)
        spec = {"shard": "steps"}
        ctx = Ctx(mod.PROPERTY, spec, seed, tier)
        budget = int(getattr(mod, "STEP_BUDGET", 200000000))
        status = "completed"
        if hasattr(mod, "setup"):
            mod.setup(ctx)
        sc = StepCounter(budget)
        try:
            with sc:
                ctx.current_case = case
                mod.run_case(case, ctx)
        except StepBudgetExceeded:
            status = "budget-exceeded"
        res = ctx.result()
        res["steps_status"] = status
        res["steps"] = sc.steps
        res["budget"] = budget
    else:
        raise SystemExit("bad mode")
    res["wall_s"] = time.time() - t0
    jsonx.dump_file(res, outpath)
    return 0


if __name__ == "__main__":
    sys.exit(main(sys.argv[1:]))
