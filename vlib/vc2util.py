"""Harness-side helpers around the real vc2_conformance entry points.

Everything here *calls* the code under test; the only independent piece is
`framing()` (R-framing), which walks a byte string with `struct` only.
"""
import copy
import struct
import sys
import traceback
from io import BytesIO

from vlib.worker import OutOfScope

PARSE_INFO_PREFIX = b"BBCD"
PC_SEQUENCE_HEADER = 0x00
PC_END_OF_SEQUENCE = 0x10
PC_AUX = 0x20
PC_PADDING = 0x30
PC_LD_PICTURE = 0xC8
PC_HQ_PICTURE = 0xE8
PC_LD_FRAGMENT = 0xCC
PC_HQ_FRAGMENT = 0xEC
PICTURE_CODES = (PC_LD_PICTURE, PC_HQ_PICTURE)
FRAGMENT_CODES = (PC_LD_FRAGMENT, PC_HQ_FRAGMENT)
PC_NAMES = {
    0x00: "sequence_header", 0x10: "end_of_sequence", 0x20: "auxiliary_data", 0x30: "padding_data",
    0xC8: "low_delay_picture", 0xE8: "high_quality_picture", 0xCC: "low_delay_picture_fragment",
    0xEC: "high_quality_picture_fragment",
}


# --------------------------------------------------------------------------
# serialise / deserialise
# --------------------------------------------------------------------------
def serialise(sequences, in_place=False):
    """Autofill + serialise a list of Sequence descriptions (deep-copied: the
    real function mutates its argument; in_place=True hands over the very objects,
    as a caller that builds a stream from objects it was given would)."""
    from vc2_conformance.bitstream import Stream, autofill_and_serialise_stream

    f = BytesIO()
    autofill_and_serialise_stream(f, Stream(sequences=list(sequences) if in_place else copy.deepcopy(list(sequences))))
    return f.getvalue()


def deserialise(data):
    """-> (context, reader_at_eof)   raises whatever the deserialiser raises"""
    import vc2_conformance.bitstream as bs
    from vc2_conformance.pseudocode.state import State

    r = bs.BitstreamReader(BytesIO(data))
    with bs.Deserialiser(r) as des:
        bs.parse_stream(des, State())
    return des.context, r.is_end_of_stream()


def reserialise(context):
    import vc2_conformance.bitstream as bs
    from vc2_conformance.pseudocode.state import State

    out = BytesIO()
    w = bs.BitstreamWriter(out)
    with bs.Serialiser(w, context) as ser:
        bs.parse_stream(ser, State())
    w.flush()
    return out.getvalue()


# --------------------------------------------------------------------------
# validator
# --------------------------------------------------------------------------
class Verdict(object):
    __slots__ = ("kind", "exc", "exc_class", "pictures", "state", "site", "tb", "report_error", "picture_refs")

    def __init__(self):
        self.kind = None  # "ok" | "ce" | "crash" | "oos"
        self.exc = None
        self.exc_class = None
        self.pictures = []
        self.state = None
        self.site = None
        self.tb = None
        self.report_error = None
        self.picture_refs = []  # the very objects handed to the callback (what a consumer that keeps them ends up with)

    def pictures_changed_after_output(self):
        """indices of pictures whose object, as retained by the consumer, no longer equals the snapshot taken when it was output"""
        return [i for i, (ref, snap) in enumerate(zip(self.picture_refs, self.pictures))
                if snap is not None and ref is not snap[0] and ref != snap[0]]

    @property
    def accepted(self):
        return self.kind == "ok"


def _site(tb, prefix="vc2_conformance"):
    """innermost repository frame of a traceback: 'file.py:func:line'"""
    frames = traceback.extract_tb(tb)
    for fr in reversed(frames):
        if prefix in fr.filename:
            return "%s:%s:%d" % (fr.filename.split("vc2_conformance/")[-1], fr.name, fr.lineno)
    return None


def validate(data, keep_pictures=True, check_reporting=False, deepcopy_pictures=True):
    """Run the real validator over `data`.  Never raises except OutOfScope."""
    from vc2_conformance.decoder import init_io, parse_stream, ConformanceError
    from vc2_conformance.pseudocode.state import State

    v = Verdict()

    def cb(picture, video_parameters, picture_coding_mode):
        if keep_pictures:
            v.picture_refs.append(picture)
            v.pictures.append(
                (copy.deepcopy(picture) if deepcopy_pictures else picture, copy.deepcopy(video_parameters), picture_coding_mode)
            )
        else:
            v.pictures.append(None)

    state = State(_output_picture_callback=cb)
    v.state = state
    init_io(state, BytesIO(data))
    try:
        parse_stream(state)
        v.kind = "ok"
    except OutOfScope:
        v.kind = "oos"
    except ConformanceError as e:
        v.kind = "ce"
        v.exc = e
        v.exc_class = type(e).__name__
        v.site = _site(sys.exc_info()[2])
        if check_reporting:
            v.report_error = check_conformance_error_reporting(e, len(data))
    except Exception as e:
        v.kind = "crash"
        v.exc = e
        v.exc_class = type(e).__name__
        v.site = _site(sys.exc_info()[2])
        v.tb = traceback.format_exc()[-3000:]
    return v


def check_conformance_error_reporting(e, nbytes):
    """The four reporting methods must work.  Returns None or a description."""
    try:
        s = e.explain()
        if not isinstance(s, str):
            return "explain() returned %r" % (type(s),)
        s2 = str(e)
        if not isinstance(s2, str):
            return "str() returned %r" % (type(s2),)
        off = e.offending_offset()
        if off is not None and not isinstance(off, int):
            return "offending_offset() returned %r" % (type(off),)
        hint = e.bitstream_viewer_hint()
        if not isinstance(hint, str):
            return "bitstream_viewer_hint() returned %r" % (type(hint),)
        h2 = hint.format(cmd="vc2-bitstream-viewer", file="x.vc2", offset=off if off is not None else 0)
        if not isinstance(h2, str):
            return "hint.format returned %r" % (type(h2),)
    except Exception as e2:
        return "reporting raised %s: %s @ %s" % (type(e2).__name__, e2, _site(sys.exc_info()[2]))
    return None


# --------------------------------------------------------------------------
# R-framing: independent walk over parse_info headers
# --------------------------------------------------------------------------
class Unit(object):
    __slots__ = ("offset", "parse_code", "next", "prev", "length", "picture_number", "frag_data_length",
                 "frag_slice_count", "frag_x", "frag_y")

    def as_dict(self):
        return {k: getattr(self, k) for k in self.__slots__}


def framing(data, strict=True):
    """Walk `data` by parse_info prefix/next offsets.  Returns list of Unit.
    A unit with next offset 0 that is not last is delimited by searching for
    the next prefix at which a consistent chain continues (used only for
    pictures with absent offsets in conformant streams)."""
    units = []
    off = 0
    n = len(data)
    while off + 13 <= n:
        if data[off:off + 4] != PARSE_INFO_PREFIX:
            if strict:
                raise ValueError("no parse_info prefix at %d" % off)
            break
        u = Unit()
        u.offset = off
        u.parse_code = data[off + 4]
        u.next, u.prev = struct.unpack(">II", data[off + 5:off + 13])
        u.picture_number = u.frag_data_length = u.frag_slice_count = u.frag_x = u.frag_y = None
        if u.parse_code in PICTURE_CODES and off + 17 <= n:
            u.picture_number = struct.unpack(">I", data[off + 13:off + 17])[0]
        if u.parse_code in FRAGMENT_CODES and off + 21 <= n:
            u.picture_number, u.frag_data_length, u.frag_slice_count = struct.unpack(">IHH", data[off + 13:off + 21])
            if u.frag_slice_count != 0 and off + 25 <= n:
                u.frag_x, u.frag_y = struct.unpack(">HH", data[off + 21:off + 25])
        if u.next:
            end = off + u.next
        elif u.parse_code == PC_END_OF_SEQUENCE:
            end = off + 13
        else:
            # absent offset: find the next prefix whose previous offset is either 0 or
            # points back exactly here (best effort, sufficient for generated streams)
            end = None
            p = data.find(PARSE_INFO_PREFIX, off + 13)
            while p != -1:
                if p + 13 <= n:
                    prev = struct.unpack(">I", data[p + 9:p + 13])[0]
                    if prev == p - off or prev == 0:
                        end = p
                        break
                p = data.find(PARSE_INFO_PREFIX, p + 1)
            if end is None:
                end = n
        u.length = end - off
        units.append(u)
        if end <= off:
            break
        off = end
    return units


def split_units(data):
    """-> list of bytes objects, one per data unit (requires non-zero next offsets
    except on end_of_sequence)."""
    return [bytes(data[u.offset:u.offset + u.length]) for u in framing(data)]


def join_units(units, fix_offsets=True):
    """Concatenate unit byte strings, recomputing next/previous parse offsets.
    EOS gets next=0; the first unit of each sequence gets prev=0."""
    out = bytearray()
    prev_len = 0
    for i, u in enumerate(units):
        u = bytearray(u)
        if fix_offsets:
            is_eos = u[4] == PC_END_OF_SEQUENCE
            u[5:9] = struct.pack(">I", 0 if is_eos else len(u))
            u[9:13] = struct.pack(">I", prev_len)
            prev_len = 0 if is_eos else len(u)
        out += u
    return bytes(out)


# --------------------------------------------------------------------------
# size guard ("within modest bounds")
# --------------------------------------------------------------------------
GUARD_BOUNDS = dict(
    dwt_depth=4, dwt_depth_ho=4, slices_x=16, slices_y=16, slice_prefix_bytes=64, slice_size_scaler=64,
    slice_bytes_numerator=1 << 14, luma_excursion=1 << 20, color_diff_excursion=1 << 20,
    frame_width=256, frame_height=256,
)
MAX_LUMA_SAMPLES = 4096


class SizeGuard(object):
    """Harness-side resource bound for the validator: wraps assert_level_constraint
    and set_coding_parameters (every alias) so that declarations beyond the bounds
    raise OutOfScope (a BaseException) instead of consuming minutes."""

    def __init__(self, bounds=None, max_luma=MAX_LUMA_SAMPLES, max_depth=21):
        self.max_depth = max_depth
        self.bounds = dict(GUARD_BOUNDS)
        self.bounds.update(bounds or {})
        self.max_luma = max_luma
        self.rebinds = []

    def install(self):
        from vlib.rebind import Rebind
        import vc2_conformance.decoder  # noqa: F401  (make sure modules are loaded)
        import vc2_conformance.bitstream.vc2  # noqa: F401
        from vc2_conformance.decoder import assertions
        from vc2_conformance.pseudocode import video_parameters

        bounds = self.bounds
        max_luma = self.max_luma
        max_depth = self.max_depth

        def f1(orig):
            def guarded(state, key, value):
                b = bounds.get(key)
                if b is not None and isinstance(value, int) and value > b:
                    raise OutOfScope(key)
                return orig(state, key, value)

            return guarded

        def f2(orig):
            def guarded(state, video_parameters):
                r = orig(state, video_parameters)
                if state["luma_width"] * state["luma_height"] > max_luma:
                    raise OutOfScope("luma samples")
                if max(state["luma_depth"], state["color_diff_depth"]) > max_depth:
                    raise OutOfScope("depth")
                return r

            return guarded

        self.rebinds.append(Rebind(assertions.assert_level_constraint, f1).install())
        self.rebinds.append(Rebind(video_parameters.set_coding_parameters, f2).install())
        return self

    @property
    def calls(self):
        return sum(r.calls for r in self.rebinds)

    def restore(self):
        for r in self.rebinds:
            r.restore()
        self.rebinds = []


class DeserialiserGuard(object):
    """Same bounds for the bitstream deserialiser/viewer, applied where it
    reads the size-determining fields (SerDes.uint / nbits by target name)."""

    def __init__(self, bounds=None, max_luma=MAX_LUMA_SAMPLES, max_depth=21):
        self.max_depth = max_depth
        self.bounds = dict(GUARD_BOUNDS)
        self.bounds.update(bounds or {})
        self.max_luma = max_luma
        self.orig = {}
        self.calls = 0

    def install(self):
        from vc2_conformance.bitstream import serdes
        from vc2_conformance.pseudocode import video_parameters
        from vlib.rebind import Rebind

        bounds = self.bounds
        guard = self
        max_depth = self.max_depth

        for cls in (serdes.Deserialiser, serdes.MonitoredDeserialiser):
            for meth in ("uint", "nbits"):
                if meth not in cls.__dict__:
                    continue
                orig = cls.__dict__[meth]
                self.orig[(cls, meth)] = orig

                def make(orig, meth):
                    if meth == "uint":
                        def wrapped(self, target):
                            v = orig(self, target)
                            guard.calls += 1
                            b = bounds.get(target)
                            if b is not None and isinstance(v, int) and v > b:
                                raise OutOfScope(target)
                            return v
                    else:
                        def wrapped(self, target, num_bits):
                            v = orig(self, target, num_bits)
                            guard.calls += 1
                            b = bounds.get(target)
                            if b is not None and isinstance(v, int) and v > b:
                                raise OutOfScope(target)
                            return v
                    return wrapped

                setattr(cls, meth, make(orig, meth))
        max_luma = self.max_luma

        def f2(orig):
            def guarded(state, video_parameters):
                r = orig(state, video_parameters)
                if state["luma_width"] * state["luma_height"] > max_luma:
                    raise OutOfScope("luma samples")
                if max(state["luma_depth"], state["color_diff_depth"]) > max_depth:
                    raise OutOfScope("depth")
                return r

            return guarded

        self.rb = Rebind(video_parameters.set_coding_parameters, f2).install()
        return self

    def restore(self):
        for (cls, meth), orig in self.orig.items():
            setattr(cls, meth, orig)
        self.rb.restore()


# --------------------------------------------------------------------------
# encode helper
# --------------------------------------------------------------------------
def encode(recipe, **kwargs):
    """recipe -> (cf, pictures, sequence) using the real encoder.
    Raises UnsatisfiableCodecFeaturesError (the encoder's own 'not accepted')."""
    from vc2_conformance.encoder import make_sequence
    from vlib.gen import configs

    cf = configs.build_cf(recipe)
    pics = configs.build_pictures(recipe, cf["video_parameters"])
    seq = make_sequence(cf, copy.deepcopy(pics), *kwargs.pop("patterns", ()), **kwargs)
    return cf, pics, seq
