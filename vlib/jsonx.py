"""JSON helpers that round-trip bytes (as {"__b": hex}) and tuples (as lists)."""
import json
import hashlib


def _enc(o):
    if isinstance(o, (bytes, bytearray)):
        return {"__b": bytes(o).hex()}
    if isinstance(o, dict):
        return {str(k): _enc(v) for k, v in o.items()}
    if isinstance(o, (list, tuple)):
        return [_enc(v) for v in o]
    if isinstance(o, (set, frozenset)):
        return sorted((_enc(v) for v in o), key=repr)
    if isinstance(o, (str, int, float, bool)) or o is None:
        return o
    # enums, numpy ints, exceptions ... degrade to something printable
    try:
        import enum

        if isinstance(o, enum.Enum):
            return _enc(o.value) if isinstance(o.value, (int, str)) else repr(o)
    except Exception:
        pass
    try:
        return int(o)
    except Exception:
        return repr(o)


def _dec(o):
    if isinstance(o, dict):
        if len(o) == 1 and "__b" in o:
            return bytes.fromhex(o["__b"])
        return {k: _dec(v) for k, v in o.items()}
    if isinstance(o, list):
        return [_dec(v) for v in o]
    return o


def dumps(o, **kw):
    return json.dumps(_enc(o), **kw)


def loads(s):
    return _dec(json.loads(s))


def dump_file(o, path, **kw):
    with open(path, "w") as f:
        f.write(dumps(o, **kw))


def load_file(path):
    with open(path) as f:
        return loads(f.read())


def key_hash(o):
    """Stable 63-bit hash of a JSON-able object (canonical form)."""
    if not isinstance(o, (bytes, bytearray)):
        o = dumps(o, sort_keys=True, separators=(",", ":")).encode()
    return int.from_bytes(hashlib.blake2b(bytes(o), digest_size=8).digest(), "big") >> 1


def sha12(o):
    if not isinstance(o, (bytes, bytearray)):
        o = dumps(o, sort_keys=True, separators=(",", ":")).encode()
    return hashlib.sha256(bytes(o)).hexdigest()[:12]
